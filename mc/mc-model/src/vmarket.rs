//! Deterministic in-memory market/position implementing the gmsol-model traits.
#![allow(dead_code)]
use std::ops::{Deref, DerefMut};

use gmsol_model::{
    action::decrease_position::DecreasePositionSwapType,
    fixed::FixedPointOps,
    num::{MulDiv, Num, Unsigned, UnsignedAbs},
    params::{
        fee::{
            BorrowingFeeKinkModelParams, BorrowingFeeKinkModelParamsForOneSide, BorrowingFeeParams,
            FundingFeeParams, LiquidationFeeParams,
        },
        position::PositionImpactDistributionParams,
        FeeParams, PositionParams, PriceImpactParams,
    },
    pool::{Balance, Delta, Pool},
    BaseMarket, BaseMarketMut, BorrowingFeeMarket, BorrowingFeeMarketMut, LiquidityMarket,
    LiquidityMarketMut, PerpMarket, PerpMarketMut, PnlFactorKind, Position, PositionImpactMarket,
    PositionImpactMarketMut, PositionMut, PositionState, PositionStateMut, SwapMarket,
    SwapMarketMut,
};
use num_traits::{CheckedSub, Signed};

#[derive(Debug, Default, Clone, Copy, PartialEq, Eq, Hash)]
pub struct VPool<T> {
    pub long: T,
    pub short: T,
}

impl<T: MulDiv + Num + CheckedSub> Balance for VPool<T> {
    type Num = T;
    type Signed = T::Signed;
    fn long_amount(&self) -> gmsol_model::Result<T> {
        Ok(self.long.clone())
    }
    fn short_amount(&self) -> gmsol_model::Result<T> {
        Ok(self.short.clone())
    }
}

fn apply<T: MulDiv + Num + CheckedSub>(v: &mut T, d: &T::Signed) -> gmsol_model::Result<()>
where
    T::Signed: Signed,
{
    if d.is_positive() {
        *v = v.checked_add(&d.unsigned_abs()).ok_or(gmsol_model::Error::Overflow)?;
    } else {
        *v = v
            .checked_sub(&d.unsigned_abs())
            .ok_or(gmsol_model::Error::Computation("decreasing amount"))?;
    }
    Ok(())
}

impl<T: MulDiv + Num + CheckedSub> Pool for VPool<T>
where
    T::Signed: Signed,
{
    fn checked_apply_delta(&self, delta: Delta<&Self::Signed>) -> gmsol_model::Result<Self> {
        let mut ans = self.clone();
        if let Some(a) = delta.long() {
            apply(&mut ans.long, a)?;
        }
        if let Some(a) = delta.short() {
            apply(&mut ans.short, a)?;
        }
        Ok(ans)
    }
}

#[derive(Debug, Clone)]
pub struct VConfig<T> {
    pub swap_impact: PriceImpactParams<T>,
    pub swap_fee: FeeParams<T>,
    pub position: PositionParams<T>,
    pub position_impact: PriceImpactParams<T>,
    pub order_fee: FeeParams<T>,
    pub distribution: PositionImpactDistributionParams<T>,
    pub borrowing: BorrowingFeeParams<T>,
    pub kink: BorrowingFeeKinkModelParamsForOneSide<T>,
    pub funding: FundingFeeParams<T>,
    pub liquidation: LiquidationFeeParams<T>,
    pub reserve_factor: T,
    pub oi_reserve_factor: T,
    pub max_pnl_deposit: T,
    pub max_pnl_withdrawal: T,
    pub max_pnl_trader: T,
    pub max_pnl_adl: T,
    pub min_pnl_after_adl: T,
    pub max_pool_amount: T,
    pub max_pool_value_for_deposit: T,
    pub max_open_interest: T,
    pub min_collateral_factor_for_oi: T,
    pub ignore_oi_for_usage: bool,
    pub usd_to_amount_divisor: T,
    pub funding_adjustment: T,
}

#[derive(Debug, Clone, Copy, Default, PartialEq, Eq, Hash)]
pub struct Clocks {
    pub now: u64,
    pub distribution: u64,
    pub borrowing: u64,
    pub funding: u64,
}

#[derive(Debug, Clone)]
pub struct VMarket<T: Unsigned, const D: u8> {
    pub cfg: std::sync::Arc<VConfig<T>>,
    pub supply: T,
    pub primary: VPool<T>,
    pub swap_impact: VPool<T>,
    pub fee: VPool<T>,
    pub oi: [VPool<T>; 2],
    pub oi_tokens: [VPool<T>; 2],
    pub position_impact: VPool<T>,
    pub borrowing_factor: VPool<T>,
    pub funding_factor_per_second: T::Signed,
    pub funding_per_size: [VPool<T>; 2],
    pub claimable_funding_per_size: [VPool<T>; 2],
    pub collateral_sum: [VPool<T>; 2],
    pub total_borrowing: VPool<T>,
    pub clocks: Clocks,
    pub insufficient_funding_reports: u32,
    /// cumulative (funding cost - amount paid in collateral) reported as insufficient, per collateral token [long, short]
    pub funding_shortfall: [T; 2],
    /// optional virtual inventory pools (shared across markets on chain)
    pub vi_swaps: Option<VPool<T>>,
    pub vi_positions: Option<VPool<T>>,
}

fn ix(is_long: bool) -> usize {
    if is_long {
        0
    } else {
        1
    }
}

impl<T, const D: u8> VMarket<T, D>
where
    T: Unsigned + Default + Clone,
    T::Signed: Default,
{
    pub fn new(cfg: VConfig<T>) -> Self {
        Self {
            cfg: std::sync::Arc::new(cfg),
            supply: Default::default(),
            primary: Default::default(),
            swap_impact: Default::default(),
            fee: Default::default(),
            oi: Default::default(),
            oi_tokens: Default::default(),
            position_impact: Default::default(),
            borrowing_factor: Default::default(),
            funding_factor_per_second: Default::default(),
            funding_per_size: Default::default(),
            claimable_funding_per_size: Default::default(),
            collateral_sum: Default::default(),
            total_borrowing: Default::default(),
            clocks: Default::default(),
            insufficient_funding_reports: 0,
            funding_shortfall: Default::default(),
            vi_swaps: None,
            vi_positions: None,
        }
    }
}


impl<T, const D: u8> BaseMarket<D> for VMarket<T, D>
where
    T: CheckedSub + std::fmt::Display + FixedPointOps<D>,
    T::Signed: Num + std::fmt::Debug + Signed,
{
    type Num = T;
    type Signed = T::Signed;
    type Pool = VPool<T>;
    fn liquidity_pool(&self) -> gmsol_model::Result<&Self::Pool> {
        Ok(&self.primary)
    }
    fn claimable_fee_pool(&self) -> gmsol_model::Result<&Self::Pool> {
        Ok(&self.fee)
    }
    fn swap_impact_pool(&self) -> gmsol_model::Result<&Self::Pool> {
        Ok(&self.swap_impact)
    }
    fn open_interest_pool(&self, is_long: bool) -> gmsol_model::Result<&Self::Pool> {
        Ok(&self.oi[ix(is_long)])
    }
    fn open_interest_in_tokens_pool(&self, is_long: bool) -> gmsol_model::Result<&Self::Pool> {
        Ok(&self.oi_tokens[ix(is_long)])
    }
    fn collateral_sum_pool(&self, is_long: bool) -> gmsol_model::Result<&Self::Pool> {
        Ok(&self.collateral_sum[ix(is_long)])
    }
    fn virtual_inventory_for_swaps_pool(
        &self,
    ) -> gmsol_model::Result<Option<impl Deref<Target = Self::Pool>>> {
        Ok(self.vi_swaps.as_ref())
    }
    fn virtual_inventory_for_positions_pool(
        &self,
    ) -> gmsol_model::Result<Option<impl Deref<Target = Self::Pool>>> {
        Ok(self.vi_positions.as_ref())
    }
    fn usd_to_amount_divisor(&self) -> T {
        self.cfg.usd_to_amount_divisor.clone()
    }
    fn max_pool_amount(&self, _l: bool) -> gmsol_model::Result<T> {
        Ok(self.cfg.max_pool_amount.clone())
    }
    fn pnl_factor_config(&self, kind: PnlFactorKind, _l: bool) -> gmsol_model::Result<T> {
        Ok(match kind {
            PnlFactorKind::MaxAfterDeposit => self.cfg.max_pnl_deposit.clone(),
            PnlFactorKind::MaxAfterWithdrawal => self.cfg.max_pnl_withdrawal.clone(),
            PnlFactorKind::MaxForTrader => self.cfg.max_pnl_trader.clone(),
            PnlFactorKind::ForAdl => self.cfg.max_pnl_adl.clone(),
            PnlFactorKind::MinAfterAdl => self.cfg.min_pnl_after_adl.clone(),
            _ => unreachable!(),
        })
    }
    fn reserve_factor(&self) -> gmsol_model::Result<T> {
        Ok(self.cfg.reserve_factor.clone())
    }
    fn open_interest_reserve_factor(&self) -> gmsol_model::Result<T> {
        Ok(self.cfg.oi_reserve_factor.clone())
    }
    fn max_open_interest(&self, _l: bool) -> gmsol_model::Result<T> {
        Ok(self.cfg.max_open_interest.clone())
    }
    fn ignore_open_interest_for_usage_factor(&self) -> gmsol_model::Result<bool> {
        Ok(self.cfg.ignore_oi_for_usage)
    }
}

impl<T, const D: u8> BaseMarketMut<D> for VMarket<T, D>
where
    T: CheckedSub + std::fmt::Display + FixedPointOps<D>,
    T::Signed: Num + std::fmt::Debug + Signed,
{
    fn liquidity_pool_mut(&mut self) -> gmsol_model::Result<&mut Self::Pool> {
        Ok(&mut self.primary)
    }
    fn claimable_fee_pool_mut(&mut self) -> gmsol_model::Result<&mut Self::Pool> {
        Ok(&mut self.fee)
    }
    fn virtual_inventory_for_swaps_pool_mut(
        &mut self,
    ) -> gmsol_model::Result<Option<impl DerefMut<Target = Self::Pool>>> {
        Ok(self.vi_swaps.as_mut())
    }
}

impl<T, const D: u8> SwapMarket<D> for VMarket<T, D>
where
    T: CheckedSub + std::fmt::Display + FixedPointOps<D>,
    T::Signed: Num + std::fmt::Debug + Signed,
{
    fn swap_impact_params(&self) -> gmsol_model::Result<PriceImpactParams<T>> {
        Ok(self.cfg.swap_impact.clone())
    }
    fn swap_fee_params(&self) -> gmsol_model::Result<FeeParams<T>> {
        Ok(self.cfg.swap_fee.clone())
    }
}

impl<T, const D: u8> SwapMarketMut<D> for VMarket<T, D>
where
    T: CheckedSub + std::fmt::Display + FixedPointOps<D>,
    T::Signed: Num + std::fmt::Debug + Signed,
{
    fn swap_impact_pool_mut(&mut self) -> gmsol_model::Result<&mut Self::Pool> {
        Ok(&mut self.swap_impact)
    }
}

impl<T, const D: u8> LiquidityMarket<D> for VMarket<T, D>
where
    T: CheckedSub + std::fmt::Display + FixedPointOps<D>,
    T::Signed: Num + std::fmt::Debug + Signed,
{
    fn total_supply(&self) -> T {
        self.supply.clone()
    }
    fn max_pool_value_for_deposit(&self, _l: bool) -> gmsol_model::Result<T> {
        Ok(self.cfg.max_pool_value_for_deposit.clone())
    }
}

impl<T, const D: u8> LiquidityMarketMut<D> for VMarket<T, D>
where
    T: CheckedSub + std::fmt::Display + FixedPointOps<D>,
    T::Signed: Num + std::fmt::Debug + Signed,
{
    fn mint(&mut self, amount: &T) -> Result<(), gmsol_model::Error> {
        self.supply = self.supply.checked_add(amount).ok_or(gmsol_model::Error::Overflow)?;
        Ok(())
    }
    fn burn(&mut self, amount: &T) -> gmsol_model::Result<()> {
        self.supply = self
            .supply
            .checked_sub(amount)
            .ok_or(gmsol_model::Error::Computation("burn"))?;
        Ok(())
    }
}

impl<T, const D: u8> PositionImpactMarket<D> for VMarket<T, D>
where
    T: CheckedSub + std::fmt::Display + FixedPointOps<D>,
    T::Signed: Num + std::fmt::Debug + Signed,
{
    fn position_impact_pool(&self) -> gmsol_model::Result<&Self::Pool> {
        Ok(&self.position_impact)
    }
    fn position_impact_params(&self) -> gmsol_model::Result<PriceImpactParams<T>> {
        Ok(self.cfg.position_impact.clone())
    }
    fn position_impact_distribution_params(
        &self,
    ) -> gmsol_model::Result<PositionImpactDistributionParams<T>> {
        Ok(self.cfg.distribution.clone())
    }
    fn passed_in_seconds_for_position_impact_distribution(&self) -> gmsol_model::Result<u64> {
        Ok(self.clocks.now.saturating_sub(self.clocks.distribution))
    }
}

impl<T, const D: u8> PositionImpactMarketMut<D> for VMarket<T, D>
where
    T: CheckedSub + std::fmt::Display + FixedPointOps<D>,
    T::Signed: Num + std::fmt::Debug + Signed,
{
    fn position_impact_pool_mut(&mut self) -> gmsol_model::Result<&mut Self::Pool> {
        Ok(&mut self.position_impact)
    }
    fn just_passed_in_seconds_for_position_impact_distribution(
        &mut self,
    ) -> gmsol_model::Result<u64> {
        let d = self.clocks.now.saturating_sub(self.clocks.distribution);
        self.clocks.distribution = self.clocks.now;
        Ok(d)
    }
}

impl<T, const D: u8> BorrowingFeeMarket<D> for VMarket<T, D>
where
    T: CheckedSub + std::fmt::Display + FixedPointOps<D>,
    T::Signed: Num + std::fmt::Debug + Signed,
{
    fn borrowing_factor_pool(&self) -> gmsol_model::Result<&Self::Pool> {
        Ok(&self.borrowing_factor)
    }
    fn total_borrowing_pool(&self) -> gmsol_model::Result<&Self::Pool> {
        Ok(&self.total_borrowing)
    }
    fn borrowing_fee_params(&self) -> gmsol_model::Result<BorrowingFeeParams<T>> {
        Ok(self.cfg.borrowing.clone())
    }
    fn passed_in_seconds_for_borrowing(&self) -> gmsol_model::Result<u64> {
        Ok(self.clocks.now.saturating_sub(self.clocks.borrowing))
    }
    fn borrowing_fee_kink_model_params(
        &self,
    ) -> gmsol_model::Result<BorrowingFeeKinkModelParams<T>> {
        Ok(BorrowingFeeKinkModelParams::builder()
            .long(self.cfg.kink.clone())
            .short(self.cfg.kink.clone())
            .build())
    }
}

impl<T, const D: u8> BorrowingFeeMarketMut<D> for VMarket<T, D>
where
    T: CheckedSub + std::fmt::Display + FixedPointOps<D>,
    T::Signed: Num + std::fmt::Debug + Signed,
{
    fn borrowing_factor_pool_mut(&mut self) -> gmsol_model::Result<&mut Self::Pool> {
        Ok(&mut self.borrowing_factor)
    }
    fn just_passed_in_seconds_for_borrowing(&mut self) -> gmsol_model::Result<u64> {
        let d = self.clocks.now.saturating_sub(self.clocks.borrowing);
        self.clocks.borrowing = self.clocks.now;
        Ok(d)
    }
}

impl<T, const D: u8> PerpMarket<D> for VMarket<T, D>
where
    T: CheckedSub + std::fmt::Display + FixedPointOps<D>,
    T::Signed: Num + std::fmt::Debug + Signed,
{
    fn funding_factor_per_second(&self) -> &Self::Signed {
        &self.funding_factor_per_second
    }
    fn funding_amount_per_size_adjustment(&self) -> T {
        self.cfg.funding_adjustment.clone()
    }
    fn funding_fee_params(&self) -> gmsol_model::Result<FundingFeeParams<T>> {
        Ok(self.cfg.funding.clone())
    }
    fn funding_amount_per_size_pool(&self, is_long: bool) -> gmsol_model::Result<&Self::Pool> {
        Ok(&self.funding_per_size[ix(is_long)])
    }
    fn claimable_funding_amount_per_size_pool(
        &self,
        is_long: bool,
    ) -> gmsol_model::Result<&Self::Pool> {
        Ok(&self.claimable_funding_per_size[ix(is_long)])
    }
    fn position_params(&self) -> gmsol_model::Result<PositionParams<T>> {
        Ok(self.cfg.position.clone())
    }
    fn order_fee_params(&self) -> gmsol_model::Result<FeeParams<T>> {
        Ok(self.cfg.order_fee.clone())
    }
    fn min_collateral_factor_for_open_interest_multiplier(
        &self,
        _l: bool,
    ) -> gmsol_model::Result<T> {
        Ok(self.cfg.min_collateral_factor_for_oi.clone())
    }
    fn liquidation_fee_params(&self) -> gmsol_model::Result<LiquidationFeeParams<T>> {
        Ok(self.cfg.liquidation.clone())
    }
}

impl<T, const D: u8> PerpMarketMut<D> for VMarket<T, D>
where
    T: CheckedSub + std::fmt::Display + FixedPointOps<D>,
    T::Signed: Num + std::fmt::Debug + Signed,
{
    fn just_passed_in_seconds_for_funding(&mut self) -> gmsol_model::Result<u64> {
        let d = self.clocks.now.saturating_sub(self.clocks.funding);
        self.clocks.funding = self.clocks.now;
        Ok(d)
    }
    fn funding_factor_per_second_mut(&mut self) -> &mut Self::Signed {
        &mut self.funding_factor_per_second
    }
    fn open_interest_pool_mut(&mut self, is_long: bool) -> gmsol_model::Result<&mut Self::Pool> {
        Ok(&mut self.oi[ix(is_long)])
    }
    fn open_interest_in_tokens_pool_mut(
        &mut self,
        is_long: bool,
    ) -> gmsol_model::Result<&mut Self::Pool> {
        Ok(&mut self.oi_tokens[ix(is_long)])
    }
    fn funding_amount_per_size_pool_mut(
        &mut self,
        is_long: bool,
    ) -> gmsol_model::Result<&mut Self::Pool> {
        Ok(&mut self.funding_per_size[ix(is_long)])
    }
    fn claimable_funding_amount_per_size_pool_mut(
        &mut self,
        is_long: bool,
    ) -> gmsol_model::Result<&mut Self::Pool> {
        Ok(&mut self.claimable_funding_per_size[ix(is_long)])
    }
    fn collateral_sum_pool_mut(&mut self, is_long: bool) -> gmsol_model::Result<&mut Self::Pool> {
        Ok(&mut self.collateral_sum[ix(is_long)])
    }
    fn total_borrowing_pool_mut(&mut self) -> gmsol_model::Result<&mut Self::Pool> {
        Ok(&mut self.total_borrowing)
    }
    fn virtual_inventory_for_positions_pool_mut(
        &mut self,
    ) -> gmsol_model::Result<Option<impl DerefMut<Target = Self::Pool>>> {
        Ok(self.vi_positions.as_mut())
    }
    fn on_insufficient_funding_fee_payment(
        &mut self,
        cost: &T,
        paid_c: &T,
        _paid_s: &T,
        l: bool,
    ) -> gmsol_model::Result<()> {
        self.insufficient_funding_reports += 1;
        let short = cost.checked_sub(paid_c).ok_or(gmsol_model::Error::Computation("shortfall"))?;
        let i = ix(l);
        self.funding_shortfall[i] = self.funding_shortfall[i].checked_add(&short).ok_or(gmsol_model::Error::Overflow)?;
        Ok(())
    }
}

#[derive(Debug, Clone, Copy, Default, PartialEq, Eq, Hash)]
pub struct VPos<T> {
    pub is_long: bool,
    pub is_collateral_long: bool,
    pub collateral: T,
    pub size_usd: T,
    pub size_tokens: T,
    pub borrowing_factor: T,
    pub funding_per_size: T,
    pub claimable_funding_per_size: (T, T),
}

pub struct VPosOps<'a, T: Unsigned, const D: u8> {
    pub market: &'a mut VMarket<T, D>,
    pub pos: &'a mut VPos<T>,
}

impl<T, const D: u8> PositionState<D> for VPosOps<'_, T, D>
where
    T: CheckedSub + std::fmt::Display + FixedPointOps<D>,
    T::Signed: Num + std::fmt::Debug + Signed,
{
    type Num = T;
    type Signed = T::Signed;
    fn collateral_amount(&self) -> &T {
        &self.pos.collateral
    }
    fn size_in_usd(&self) -> &T {
        &self.pos.size_usd
    }
    fn size_in_tokens(&self) -> &T {
        &self.pos.size_tokens
    }
    fn borrowing_factor(&self) -> &T {
        &self.pos.borrowing_factor
    }
    fn funding_fee_amount_per_size(&self) -> &T {
        &self.pos.funding_per_size
    }
    fn claimable_funding_fee_amount_per_size(&self, l: bool) -> &T {
        if l {
            &self.pos.claimable_funding_per_size.0
        } else {
            &self.pos.claimable_funding_per_size.1
        }
    }
}

impl<T, const D: u8> PositionStateMut<D> for VPosOps<'_, T, D>
where
    T: CheckedSub + std::fmt::Display + FixedPointOps<D>,
    T::Signed: Num + std::fmt::Debug + Signed,
{
    fn collateral_amount_mut(&mut self) -> &mut T {
        &mut self.pos.collateral
    }
    fn size_in_usd_mut(&mut self) -> &mut T {
        &mut self.pos.size_usd
    }
    fn size_in_tokens_mut(&mut self) -> &mut T {
        &mut self.pos.size_tokens
    }
    fn borrowing_factor_mut(&mut self) -> &mut T {
        &mut self.pos.borrowing_factor
    }
    fn funding_fee_amount_per_size_mut(&mut self) -> &mut T {
        &mut self.pos.funding_per_size
    }
    fn claimable_funding_fee_amount_per_size_mut(&mut self, l: bool) -> &mut T {
        if l {
            &mut self.pos.claimable_funding_per_size.0
        } else {
            &mut self.pos.claimable_funding_per_size.1
        }
    }
}

impl<T, const D: u8> Position<D> for VPosOps<'_, T, D>
where
    T: CheckedSub + std::fmt::Display + FixedPointOps<D>,
    T::Signed: Num + std::fmt::Debug + Signed,
{
    type Market = VMarket<T, D>;
    fn market(&self) -> &Self::Market {
        self.market
    }
    fn is_long(&self) -> bool {
        self.pos.is_long
    }
    fn is_collateral_token_long(&self) -> bool {
        self.pos.is_collateral_long
    }
    fn are_pnl_and_collateral_tokens_the_same(&self) -> bool {
        self.pos.is_long == self.pos.is_collateral_long
    }
    fn on_validate(&self) -> gmsol_model::Result<()> {
        Ok(())
    }
}

impl<T, const D: u8> PositionMut<D> for VPosOps<'_, T, D>
where
    T: CheckedSub + std::fmt::Display + FixedPointOps<D>,
    T::Signed: Num + std::fmt::Debug + Signed,
{
    fn market_mut(&mut self) -> &mut Self::Market {
        self.market
    }
    fn on_increased(&mut self) -> gmsol_model::Result<()> {
        Ok(())
    }
    fn on_decreased(&mut self) -> gmsol_model::Result<()> {
        Ok(())
    }
    fn on_swapped(
        &mut self,
        _ty: DecreasePositionSwapType,
        _report: &gmsol_model::action::swap::SwapReport<T, <T as Unsigned>::Signed>,
    ) -> gmsol_model::Result<()> {
        Ok(())
    }
    fn on_swap_error(
        &mut self,
        _ty: DecreasePositionSwapType,
        _error: gmsol_model::Error,
    ) -> gmsol_model::Result<()> {
        Ok(())
    }
}

impl<T, const D: u8> VMarket<T, D>
where
    T: Unsigned + std::hash::Hash,
    T::Signed: std::hash::Hash,
{
    /// Hash every dynamic field (clocks relative to `now`); the configuration is not hashed.
    pub fn hash_state<H: std::hash::Hasher>(&self, h: &mut H) {
        use std::hash::Hash;
        self.supply.hash(h);
        self.primary.hash(h);
        self.swap_impact.hash(h);
        self.fee.hash(h);
        self.oi.hash(h);
        self.oi_tokens.hash(h);
        self.position_impact.hash(h);
        self.borrowing_factor.hash(h);
        self.funding_factor_per_second.hash(h);
        self.funding_per_size.hash(h);
        self.claimable_funding_per_size.hash(h);
        self.collateral_sum.hash(h);
        self.total_borrowing.hash(h);
        (self.clocks.now - self.clocks.distribution).hash(h);
        (self.clocks.now - self.clocks.borrowing).hash(h);
        (self.clocks.now - self.clocks.funding).hash(h);
        self.insufficient_funding_reports.hash(h);
        self.funding_shortfall.hash(h);
        self.vi_swaps.hash(h);
        self.vi_positions.hash(h);
    }
}
