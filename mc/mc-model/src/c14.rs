//! C14 — position impact pool distribution respects the floor (E1 + E2).
use gmsol_model::{params::position::PositionImpactDistributionParams, MarketAction, PositionImpactMarketExt, PositionImpactMarketMutExt};
use mc_core::{
    alpha, e1,
    e2::{self, Machine, StepOut},
    json, Cli, Report,
};

use crate::ph;
use crate::vmarket::*;

const U: u128 = 10_000;

fn market(pool: u64, min: u64, rate: u64) -> VMarket<u64, 4> {
    let (_, mut c) = ph::config(0, 0);
    c.distribution = PositionImpactDistributionParams::builder().distribute_factor(rate).min_position_impact_pool_amount(min).build();
    let mut m = VMarket::<u64, 4>::new(c);
    m.position_impact.long = pool;
    m
}

fn one(sink: &mut e1::Sink, pool: u64, min: u64, rate: u64, dt: u64) {
    let m = market(pool, min, rate);
    let r = m.pending_position_impact_pool_distribution_amount(dt);
    sink.case(r.is_ok());
    let rp = || json!({"pool": pool.to_string(), "min": min.to_string(), "rate": rate.to_string(), "dt": dt.to_string()});
    let exact = dt as u128 * rate as u128 / U;
    let want: u128 = if rate == 0 || pool <= min { 0 } else { exact.min((pool - min) as u128) };
    match r {
        Ok((amt, next)) => {
            if amt as u128 != want {
                sink.fail_with("C14/wrong_distribution_amount", || (format!("distributed {amt}, rate*dt capped at the excess is {want}"), rp()));
            }
            if next > pool {
                sink.fail_with("C14/pool_increased", || (format!("{pool} -> {next}"), rp()));
            }
            if pool > min && next < min {
                sink.fail_with("C14/pool_below_floor", || (format!("{pool} -> {next} below floor {min}"), rp()));
            }
            if next as u128 + amt as u128 != pool as u128 {
                sink.fail_with("C14/next_amount_inconsistent", || (format!("pool {pool} != next {next} + distributed {amt}"), rp()));
            }
        }
        Err(_) => {
            // failure is legitimate only when rate*dt does not fit the number type
            if exact <= u64::MAX as u128 || rate == 0 || pool <= min {
                sink.fail_with("C14/unexpected_failure", || ("distribution amount failed to compute".into(), rp()));
            }
        }
    }
    sink.sample(rp);
}

struct Dist {
    acts: Vec<u64>,
    min: u64,
}

impl Machine for Dist {
    /// (market, initial pool)
    type State = (VMarket<u64, 4>, u64);
    type Action = u64; // 0 = distribute, n = advance n seconds
    fn actions(&self) -> &[u64] {
        &self.acts
    }
    fn key(&self, s: &Self::State) -> u128 {
        mc_core::hash128(&(s.0.position_impact, s.0.clocks.now - s.0.clocks.distribution, s.1))
    }
    fn step(&self, s: &Self::State, a: &u64, out: &mut StepOut) -> Self::State {
        let mut n = s.clone();
        if *a != 0 {
            n.0.clocks.now += a;
            out.label = "advance";
            return n;
        }
        let before = n.0.position_impact.long;
        match n.0.distribute_position_impact().and_then(|d| d.execute()) {
            Ok(rep) => {
                out.label = "ok";
                let after = n.0.position_impact.long;
                if after > before {
                    out.fail("C14/pool_increased", format!("{before} -> {after}"));
                }
                if before > self.min && after < self.min {
                    out.fail("C14/pool_below_floor", format!("{before} -> {after}, floor {}", self.min));
                }
                if before - after != *rep.distribution_amount() || *rep.next_position_impact_pool_amount() != after {
                    out.fail("C14/report_inconsistent", format!("pool {before} -> {after}, report {rep:?}"));
                }
                if n.0.clocks.distribution != n.0.clocks.now {
                    out.fail("C14/clock_not_consumed", "distribution clock not advanced".into());
                }
            }
            Err(_) => {
                out.label = "err";
                n = s.clone();
            }
        }
        n
    }
}

pub fn run(cli: &Cli) -> Report {
    let mut rep = Report::new(cli, "model_checking");
    rep.rule("E1: product of (pool amount, floor, rate, elapsed seconds) on pending_position_impact_pool_distribution_amount (dense 0..=60 and boundary values, UNIT=10^4); E2: every sequence of {distribute, advance 1s, 59s, 60s, 10^9 s} to depth 6/8 from pools above, at and below the floor on the real DistributePositionImpact action; non-trivial = an amount was computed");
    if let Some(rv) = &cli.replay {
        if rv.get("path").is_some() {
            let i = rv["ctx"]["start_set"].as_u64().unwrap_or(0) as usize;
            let (d, starts) = machine(i);
            e2::replay_into(&mut rep, &d, &starts, rv);
        } else {
            let g = |k: &str| rv[k].as_str().and_then(|s| s.parse::<u64>().ok()).unwrap_or(0);
            for _ in 0..2 {
                e1::run(&mut rep, "replay", &[0u8], |_, sink| one(sink, g("pool"), g("min"), g("rate"), g("dt")));
            }
            rep.states = 1;
            rep.transitions = 1;
        }
        return rep;
    }
    let mut pools: Vec<u128> = alpha::dense(60);
    pools.extend([1_000_000, u64::MAX as u128 - 1, u64::MAX as u128]);
    pools.extend(cli.extras(14, 3, 0, u64::MAX as u128));
    e1::run(&mut rep, "pending distribution amount", &pools, |&pool, sink| {
        for min in [0u64, 1, 10, 59, 60, 61, 1_000_000, u64::MAX] {
            for rate in [0u64, 1, 5_000, 9_999, 10_000, 10_001, 25_000, u64::MAX / 4, u64::MAX] {
                for dt in [0u64, 1, 2, 59, 60, 61, 3_600, 1_000_000_000, u64::MAX] {
                    one(sink, pool as u64, min, rate, dt);
                }
            }
        }
    });
    let depth = cli.tier.pick(6, 8);
    for i in 0..N_SETS {
        let (d, starts) = machine(i);
        e2::explore(&mut rep, &format!("distribute/advance histories, parameter set {i}"), &d, starts, &e2::Config { depth, max_states: 5_000_000 }, json!({"start_set": i}));
    }
    rep
}

const N_SETS: usize = 4;

fn machine(i: usize) -> (Dist, Vec<(VMarket<u64, 4>, u64)>) {
    let (min, rate) = [(10u64, 10_000u64), (0, 5_000), (1_000, 25_000), (7, 1)][i];
    let acts = vec![0u64, 1, 59, 60, 1_000_000_000];
    let starts = [0u64, min.saturating_sub(1), min, min + 1, min + 61, 1_000_000].iter().map(|p| (market(*p, min, rate), *p)).collect();
    (Dist { acts, min }, starts)
}
